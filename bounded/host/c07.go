package host

import (
	"fmt"
	"reflect"
	"sort"
	"strings"

	yae "github.com/goghcrow/yae"
	"github.com/goghcrow/yae/types"
	"github.com/goghcrow/yae/val"
)

// ---------------------------------------------------------------------------
// environments as model: ordered name -> model value

type menv struct {
	names []string
	vals  map[string]*MV
}

func newMenv(nv ...interface{}) *menv {
	e := &menv{vals: map[string]*MV{}}
	for i := 0; i+1 < len(nv); i += 2 {
		e.put(nv[i].(string), nv[i+1].(*MV))
	}
	return e
}

func (e *menv) put(n string, v *MV) {
	if _, ok := e.vals[n]; !ok {
		e.names = append(e.names, n)
	}
	e.vals[n] = v
}

func (e *menv) clone() *menv {
	c := &menv{vals: map[string]*MV{}}
	for _, n := range e.names {
		c.put(n, e.vals[n])
	}
	return c
}

func (e *menv) drop(n string) *menv {
	c := &menv{vals: map[string]*MV{}}
	for _, m := range e.names {
		if m != n {
			c.put(m, e.vals[m])
		}
	}
	return c
}

func (e *menv) with(n string, v *MV) *menv {
	c := e.clone()
	c.put(n, v)
	return c
}

func (e *menv) reversed() *menv {
	c := &menv{vals: map[string]*MV{}}
	for i := len(e.names) - 1; i >= 0; i-- {
		c.put(e.names[i], e.vals[e.names[i]])
	}
	return c
}

func (e *menv) String() string {
	xs := make([]string, len(e.names))
	for i, n := range e.names {
		xs[i] = n + " = " + e.vals[n].String() + " : " + e.vals[n].T.String()
	}
	return "{" + strings.Join(xs, "; ") + "}"
}

// asObj: the environment as one model object (for struct forms)
func (e *menv) asObj() *MV {
	o := &MV{T: &MT{K: kObj}}
	for _, n := range e.names {
		o.T.F = append(o.T.F, MF{n, e.vals[n].T})
		o.F = append(o.F, e.vals[n])
	}
	return o
}

// envForm: the concrete host representation of an environment.
type envForm string

const (
	formStruct    envForm = "struct"
	formStructPtr envForm = "*struct"
	formStruct2   envForm = "struct(other Go type)"
	formMapIface  envForm = "map[string]interface{}"
	formMapTyped  envForm = "map[string]T"
	formRaw       envForm = "raw env"
)

var allForms = []envForm{formStruct, formStructPtr, formStruct2, formMapIface, formMapTyped, formRaw}

// formable: can the model environment be written in that form?
func (e *menv) formable(f envForm) bool {
	switch f {
	case formStruct, formStructPtr, formStruct2:
		for _, n := range e.names {
			if !hostable(e.vals[n].T, true) {
				return false
			}
		}
		return true
	case formMapIface:
		for _, n := range e.names {
			if !hostable(e.vals[n].T, false) {
				return false
			}
		}
		return true
	case formMapTyped:
		if len(e.names) == 0 {
			return false
		}
		t0 := e.vals[e.names[0]].T
		if !hostable(t0, false) {
			return false
		}
		for _, n := range e.names {
			// one Go element type: identical declaration, not just tyEq
			if e.vals[n].T.String() != t0.String() {
				return false
			}
		}
		return true
	}
	return true
}

// typeSide / valueSide materialise the environment for Compile / invoke.
func (e *menv) typeSide(f envForm) interface{} {
	if f == formRaw {
		te := types.NewEnv()
		for _, n := range e.names {
			te.Put(n, toType(e.vals[n].T))
		}
		return te
	}
	return e.valueSide(f)
}

func (e *menv) valueSide(f envForm) interface{} {
	switch f {
	case formStruct:
		return toGo(e.asObj(), 0).Interface()
	case formStruct2:
		return toGo(e.asObj(), 1).Interface()
	case formStructPtr:
		v := toGo(e.asObj(), 0)
		p := reflect.New(v.Type())
		p.Elem().Set(v)
		return p.Interface()
	case formMapIface:
		m := map[string]interface{}{}
		for _, n := range e.names {
			m[n] = toGo(e.vals[n], 0).Interface()
		}
		return m
	case formMapTyped:
		et := toGoType(e.vals[e.names[0]].T, 0)
		m := reflect.MakeMap(reflect.MapOf(reflect.TypeOf(""), et))
		for _, n := range e.names {
			m.SetMapIndex(reflect.ValueOf(n), toGo(e.vals[n], 0))
		}
		return m.Interface()
	case formRaw:
		ve := val.NewEnv()
		for _, n := range e.names {
			ve.Put(n, toVal(e.vals[n]))
		}
		return ve
	}
	panic("form")
}

// ---------------------------------------------------------------------------
// programs: source + the expected number computed on the model environment
// + the expected trace

type c07prog struct {
	src   string
	needs []string // names the program mentions
	eval  func(e *menv) (float64, []string)
}

func trN(x float64) string { return fmt.Sprintf("tr(%v)", x) }

func c07Progs() []c07prog {
	return []c07prog{
		{"tr(7)", nil, func(e *menv) (float64, []string) { return 7, []string{trN(7)} }},
		{"tr(a) + 1", []string{"a"}, func(e *menv) (float64, []string) {
			a := e.vals["a"].N
			return a + 1, []string{trN(a)}
		}},
		{"len(trs(s)) + tr(a)", []string{"a", "s"}, func(e *menv) (float64, []string) {
			a, s := e.vals["a"].N, e.vals["s"].S
			return float64(len([]rune(s))) + a, []string{fmt.Sprintf("trs(%q)", s), trN(a)}
		}},
		{"tr(o.p) * 10 + tr(o.q)", []string{"o"}, func(e *menv) (float64, []string) {
			p, q := e.vals["o"].get("p").N, e.vals["o"].get("q").N
			return p*10 + q, []string{trN(p), trN(q)}
		}},
		{"tr(o.q)", []string{"o"}, func(e *menv) (float64, []string) {
			q := e.vals["o"].get("q").N
			return q, []string{trN(q)}
		}},
		{"tr(xs[0]) + tr(m[\"k\"])", []string{"xs", "m"}, func(e *menv) (float64, []string) {
			x := e.vals["xs"].L[0].N
			var k float64
			for _, en := range e.vals["m"].entries() {
				if en[0].S == "k" {
					k = en[1].N
				}
			}
			return x + k, []string{trN(x), trN(k)}
		}},
		{"tr(get(on, 7)) + tr(a)", []string{"on", "a"}, func(e *menv) (float64, []string) {
			g := 7.0
			if e.vals["on"].J != nil {
				g = e.vals["on"].J.N
			}
			a := e.vals["a"].N
			return g + a, []string{trN(g), trN(a)}
		}},
		{"tr(w.r.u) * 100 + tr(w.r.v) * 10 + tr(w.p)", []string{"w"}, func(e *menv) (float64, []string) {
			r := e.vals["w"].get("r")
			u, v, p := r.get("u").N, r.get("v").N, e.vals["w"].get("p").N
			return u*100 + v*10 + p, []string{trN(u), trN(v), trN(p)}
		}},
		{"tr(os[1].q) + tr(a)", []string{"os", "a"}, func(e *menv) (float64, []string) {
			q, a := e.vals["os"].L[1].get("q").N, e.vals["a"].N
			return q + a, []string{trN(q), trN(a)}
		}},
	}
}

func (p c07prog) applicable(e *menv) bool {
	for _, n := range p.needs {
		if _, ok := e.vals[n]; !ok {
			return false
		}
	}
	return true
}

// ---------------------------------------------------------------------------
// the six base environments

func c07Bases() []*menv {
	objPQ := func(p, q float64) *MV { return vObj("p", vNum(p), "q", vNum(q)) }
	return []*menv{
		newMenv("a", vNum(2), "s", vStr("hello")),
		newMenv("a", vNum(3), "o", objPQ(1, 2)),
		newMenv("xs", vList(tNum, vNum(4), vNum(5)), "m", vMap(tStr, tNum, vStr("k"), vNum(6), vStr("j"), vNum(7))),
		newMenv("a", vNum(5), "on", vJust(vNum(9))),
		newMenv("w", vObj("p", vNum(1), "r", vObj("u", vNum(2), "v", vNum(3))), "a", vNum(4)),
		newMenv("a", vNum(6), "os", vList(tObj(fld("p", tNum), fld("q", tNum)), objPQ(1, 2), objPQ(3, 4))),
	}
}

// ---------------------------------------------------------------------------
// mutations of the run-time environment

type c07mut struct {
	class string // input class used in failure keys
	name  string
	env   *menv
}

// retype: alternative values of a different type for a value of type t
func retype(v *MV) []*MV {
	var out []*MV
	switch v.T.K {
	case kNum:
		out = append(out, vStr("1"), vBool(true), vList(tNum, v), vJust(v))
	case kStr:
		out = append(out, vNum(1), vList(tStr, v))
	case kList:
		if v.T.El.K == kNum {
			out = append(out, vList(tStr, vStr("4"), vStr("5")), vNum(4), vMap(tNum, tNum, vNum(0), vNum(4)))
		}
		if v.T.El.K == kObj {
			// element object with one field retyped / dropped
			for _, alt := range retype(v.L[0]) {
				if alt.T.K == kObj {
					out = append(out, vList(alt.T, alt, alt))
				}
			}
		}
	case kMap:
		out = append(out,
			vMap(tStr, tStr, vStr("k"), vStr("6")),
			vMap(tNum, tNum, vNum(1), vNum(6)),
			vList(tNum, vNum(6)))
	case kMaybe:
		out = append(out, v.J, vJust(vStr("9")), vNothing(tStr))
	case kObj:
		// one field of another type
		for i := range v.T.F {
			for _, alt := range retype(v.F[i]) {
				o := &MV{T: &MT{K: kObj}}
				for j, f := range v.T.F {
					x := v.F[j]
					if j == i {
						x = alt
					}
					o.T.F = append(o.T.F, MF{f.Name, x.T})
					o.F = append(o.F, x)
				}
				out = append(out, o)
				break // one alternative per field is enough here
			}
		}
		// a field dropped, added, renamed
		if len(v.F) > 1 {
			idx := make([]int, 0, len(v.F)-1)
			for j := 1; j < len(v.F); j++ {
				idx = append(idx, j)
			}
			out = append(out, v.permuteFields(idx))
		}
		{
			o := v.permuteFields(identity(len(v.F)))
			o.T.F = append(o.T.F, MF{"zz", tNum})
			o.F = append(o.F, vNum(0))
			out = append(out, o)
		}
		{
			o := v.permuteFields(identity(len(v.F)))
			o.T.F[0] = MF{o.T.F[0].Name + "x", o.T.F[0].T}
			out = append(out, o)
		}
	}
	return out
}

func identity(n int) []int {
	p := make([]int, n)
	for i := range p {
		p[i] = i
	}
	return p
}

// reorderDeep declares every object (at any depth) whose fields all have
// the same type with reversed field order; same content.  Objects with
// fields of different types keep their order: the engine reads object
// fields by position (F2), and reading e.g. a number as an object is an
// invalid memory access that would kill the harness instead of yielding a
// wrong value.
func reorderDeep(v *MV) *MV {
	switch v.T.K {
	case kObj:
		uniform := true
		for _, f := range v.T.F {
			if f.T.Canon() != v.T.F[0].T.Canon() {
				uniform = false
			}
		}
		o := &MV{T: &MT{K: kObj}}
		for j := range v.F {
			i := j
			if uniform {
				i = len(v.F) - 1 - j
			}
			x := reorderDeep(v.F[i])
			o.T.F = append(o.T.F, MF{v.T.F[i].Name, x.T})
			o.F = append(o.F, x)
		}
		return o
	case kList:
		if len(v.L) == 0 {
			return v
		}
		l := &MV{}
		for _, e := range v.L {
			l.L = append(l.L, reorderDeep(e))
		}
		l.T = tList(l.L[0].T)
		return l
	case kMaybe:
		if v.J == nil {
			return v
		}
		return vJust(reorderDeep(v.J))
	}
	return v
}

func hasObj(t *MT) bool {
	switch t.K {
	case kObj:
		return true
	case kList, kMaybe, kMap:
		return hasObj(t.El)
	}
	return false
}

// newValues: same types, other contents
func newValues(v *MV) *MV {
	switch v.T.K {
	case kNum:
		return vNum(v.N + 10)
	case kStr:
		return vStr(v.S + "!")
	case kList:
		l := &MV{T: v.T}
		for _, e := range v.L {
			l.L = append(l.L, newValues(e))
		}
		l.L = append(l.L, l.L[0])
		return l
	case kMap:
		m := &MV{T: v.T}
		for i := range v.Keys {
			m.Keys = append(m.Keys, v.Keys[i])
			m.Vals = append(m.Vals, newValues(v.Vals[i]))
		}
		return m
	case kObj:
		o := &MV{T: v.T}
		for _, f := range v.F {
			o.F = append(o.F, newValues(f))
		}
		return o
	case kMaybe:
		if v.J == nil {
			return v
		}
		return vNothing(v.T.El)
	}
	return v
}

func c07Mutations(base *menv) []c07mut {
	var ms []c07mut
	ms = append(ms, c07mut{"same-types", "identical", base})
	{
		e := base.clone()
		for _, n := range base.names {
			e.put(n, newValues(base.vals[n]))
		}
		ms = append(ms, c07mut{"same-types", "same types, other values", e})
	}
	ms = append(ms, c07mut{"same-types", "top-level names in reverse order", base.reversed()})
	ms = append(ms, c07mut{"extra-names", "extra name zz:num", base.with("zz", vNum(0))})
	ms = append(ms, c07mut{"extra-names", "extra names zz:str, yy:list[str]", base.with("zz", vStr("z")).with("yy", vList(tStr, vStr("y")))})
	anyObj := false
	{
		e := base.clone()
		for _, n := range base.names {
			if hasObj(base.vals[n].T) {
				anyObj = true
				e.put(n, reorderDeep(base.vals[n]))
			}
		}
		if anyObj {
			ms = append(ms, c07mut{"object-fields-reordered", "object fields declared in reverse order", e})
			ms = append(ms, c07mut{"object-fields-reordered", "object fields reversed + extra name", e.with("zz", vNum(0))})
		}
	}
	for _, n := range base.names {
		ms = append(ms, c07mut{"name-missing", "name " + n + " dropped", base.drop(n)})
		ms = append(ms, c07mut{"name-missing", "name " + n + " dropped, extra name added", base.drop(n).with("zz", base.vals[n])})
		for _, alt := range retype(base.vals[n]) {
			ms = append(ms, c07mut{"type-changed", fmt.Sprintf("%s : %s instead of %s", n, alt.T, base.vals[n].T), base.with(n, alt)})
		}
	}
	ms = append(ms, c07mut{"name-missing", "empty environment", newMenv()})
	return ms
}

// accepts: the reference decision of the environment check.
func accepts(compile, run *menv) bool {
	for _, n := range compile.names {
		v, ok := run.vals[n]
		if !ok || !tyEq(compile.vals[n].T, v.T) {
			return false
		}
	}
	return true
}

// ---------------------------------------------------------------------------

func runC07(c *Ctx) {
	r := c.R
	r.Contract = "Callable(env): (reject) some compile-time name missing at run time or bound to a value of a different type (reference tyEq: structural, objects by field name) => error returned, no panic, trace of the strict host functions tr/trs empty; (accept) every compile-time name bound with an equal type (extra names, other Go type of the same shape, reordered object fields, reordered top-level names) => no error, value = the reference value computed on the run-time environment, trace = the reference trace"
	r.Space = "6 base environments (num+str; num+object; list+map; num+optional; nested object; list of objects) x compile-time form (struct, *struct, struct of another Go type with the same tags, map[string]interface{}, map[string]T, raw *types.Env) x run-time environment = base mutated (identical, other values, reversed names, extra names, fields of uniformly typed objects reversed at every depth, each name dropped, each name retyped: num->str/bool/list/maybe, str->num/list, list->other element/num/map, map->other key/value/list, maybe->payload/other payload, object->field retyped/dropped/added/renamed, empty) x run-time form (struct, *struct, other Go struct type, map[string]interface{}, map[string]T, raw *val.Env) x 9 programs over the names that call tracing host functions x back ends vm/closure/interp; plus value-dependent optional types of nil pointer fields"
	r.Rule = "distinct = distinct (program, back end, compile-time environment+form, run-time environment+form); non-trivial = the program mentions at least one environment name, or the run-time environment differs from the compile-time one in type, names or form"
	r.Exhaustive = true

	progs := c07Progs()
	nPairs := 0
	for bi, base := range c07Bases() {
		muts := c07Mutations(base)
		for _, cf := range allForms {
			if !base.formable(cf) {
				continue
			}
			for _, backend := range backends {
				// compile every applicable program once; progs[0] (`tr(7)`)
				// mentions no name, so it is safe to evaluate on ANY
				// environment: it is used as the probe of the check
				type compiled struct {
					p   c07prog
					tr  *trace
					cl  yae.Callable
					in0 string
				}
				var cs []compiled
				for _, p := range progs {
					if !p.applicable(base) {
						continue
					}
					tr := &trace{}
					in0 := fmt.Sprintf("%s [%s] compiled with %s %s", p.src, backend, cf, base)
					cl, o := compile(newEngine(backend, tr), p.src, base.typeSide(cf))
					if cl == nil {
						c.fail("C07/setup/compile", in0, "compiles", o.String(), "")
						continue
					}
					cs = append(cs, compiled{p, tr, cl, in0})
				}
				for _, m := range muts {
					for _, rf := range allForms {
						if !m.env.formable(rf) {
							continue
						}
						for i, k := range cs {
							nPairs++
							in := fmt.Sprintf("%s; invoked with %s %s (%s)", k.in0, rf, m.env, m.name)
							nontrivial := len(k.p.needs) > 0 || m.name != "identical" || rf != cf
							c.eval(in, nontrivial)
							if bi == 1 && nPairs%211 == 0 {
								c.R.Sample(clip(in, 400))
							}
							k.tr.reset()
							res := call(k.cl, m.env.valueSide(rf))
							wrong := c07Judge(c, in, k.p, base, m, res, k.tr)
							if i == 0 && wrong && !accepts(base, m.env) {
								// the check let a mismatching environment
								// through: evaluating programs that read the
								// mistyped names would read memory through
								// wrong casts; the violation is recorded,
								// the remaining programs are skipped
								break
							}
						}
					}
				}
			}
		}
	}
	c07NilPointerFields(c)
	c07NestedNilableFields(c)
	c07SharedTypeNode(c)
	r.Bound = fmt.Sprintf("all %d (compile environment, run environment, program, back end) combinations of the space above, environments of <= 3 names, objects nested <= 2", nPairs)
	r.Notes = append(r.Notes,
		"field reordering is applied only to objects whose fields all have the same type and programs read only num fields: the engine reads fields by position, and a by-position read of a differently typed field after an accepted reordering is an invalid memory access (observed: SIGSEGV in vm OP_OBJ_LOAD for w.r.u with w declared {r, p}) that would kill the harness process",
	)
}

func c07Judge(c *Ctx, in string, p c07prog, base *menv, m c07mut, res outcome, tr *trace) (violated bool) {
	if !accepts(base, m.env) {
		key := "C07/mismatch-rejected-nothing-evaluated/" + m.class
		switch {
		case res.Panic != "":
			c.fail(key, in, "error returned, nothing evaluated", res.String(), "")
			return true
		case res.Err == nil:
			c.fail(key, in, "error returned, nothing evaluated", "accepted: "+res.String(), "trace "+fmt.Sprint(tr.log))
			return true
		case len(tr.log) != 0:
			c.fail(key, in, "error returned, nothing evaluated", "error, but evaluated "+fmt.Sprint(tr.log), "")
			return true
		}
		return false
	}
	key := "C07/equal-types-accepted-evaluates/" + m.class
	if !res.ok() {
		c.fail(key, in, "accepted", res.String(), "")
		return true
	}
	// expected value from the run-time environment (names the compile-time
	// environment knows; extra names are irrelevant)
	want, wantTrace := p.eval(m.env)
	if res.V.Type.Kind != types.KNum || res.V.Num().V != want || !sameStrings(tr.log, wantTrace) {
		c.fail(key, in, fmt.Sprintf("%v with trace %v", want, wantTrace), fmt.Sprintf("%s with trace %v", res.String(), tr.log), "")
		return true
	}
	return false
}

func sameStrings(a, b []string) bool {
	if len(a) != len(b) {
		return false
	}
	for i := range a {
		if a[i] != b[i] {
			return false
		}
	}
	return true
}

// value-dependent optional types: a nil pointer field that is not declared
// optional converts to an optional, a non-nil one to its payload type; the
// two are different types and must be told apart by the check.
type c07PV struct {
	A float64  `yae:"a"`
	P *float64 `yae:"p"`
}
type c07PV2 struct {
	P *float64 `yae:"p"`
	A float64  `yae:"a"`
	Z string   `yae:"z"`
}

func c07NilPointerFields(c *Ctx) {
	three := 3.0
	type tc struct {
		name     string
		compile  interface{}
		run      interface{}
		accepted bool
		want     float64
	}
	cases := []tc{
		{"compile p=nil, run p=nil", c07PV{1, nil}, c07PV{2, nil}, true, 3},
		{"compile p=nil, run p=&3", c07PV{1, nil}, c07PV{2, &three}, false, 0},
		{"compile p=&3, run p=nil", c07PV{1, &three}, c07PV{2, nil}, false, 0},
		{"compile p=&3, run p=&3", c07PV{1, &three}, c07PV{2, &three}, true, 3},
		{"compile p=&3, run other struct type p=&3", c07PV{1, &three}, c07PV2{&three, 2, "z"}, true, 3},
		{"compile p=&3, run other struct type p=nil", c07PV{1, &three}, c07PV2{nil, 2, "z"}, false, 0},
		{"compile p=&3, run map p=3", c07PV{1, &three}, map[string]interface{}{"a": 2, "p": 3}, true, 3},
		{"compile p=&3, run map p=\"3\"", c07PV{1, &three}, map[string]interface{}{"a": 2, "p": "3"}, false, 0},
	}
	for _, backend := range backends {
		for _, k := range cases {
			in := fmt.Sprintf("tr(a) + 1 [%s] struct{a float64; p *float64}: %s", backend, k.name)
			c.eval(in, true)
			tr := &trace{}
			cl, o := compile(newEngine(backend, tr), "tr(a) + 1", k.compile)
			if cl == nil {
				c.fail("C07/setup/compile", in, "compiles", o.String(), "")
				continue
			}
			res := call(cl, k.run)
			if k.accepted {
				if !res.ok() || res.V.Type.Kind != types.KNum || res.V.Num().V != k.want {
					c.fail("C07/equal-types-accepted-evaluates/pointer-field", in, fmt.Sprint(k.want), res.String(), "")
				}
			} else if res.Panic != "" || res.Err == nil || len(tr.log) != 0 {
				c.fail("C07/mismatch-rejected-nothing-evaluated/pointer-field-nil-vs-set", in, "error returned, nothing evaluated", res.String(), "trace "+fmt.Sprint(tr.log))
			}
		}
	}
}

// the same one level down: a struct nested in the environment whose slice /
// map field is nil in one environment and set in the other.  The field's type
// is value-dependent (nil -> optional), so the two environments have different
// types although their Go types are identical; a conversion that remembers
// anything per Go type gets this wrong on the SECOND environment it sees,
// hence both orders, each on a fresh pair of struct types.
type c07In1 struct {
	ID   float64  `yae:"id"`
	Tags []string `yae:"tags"`
}
type c07Env1 struct {
	A     float64 `yae:"a"`
	Order c07In1  `yae:"order"`
}
type c07In2 struct {
	ID float64            `yae:"id"`
	M  map[string]float64 `yae:"m"`
}
type c07Env2 struct {
	A     float64 `yae:"a"`
	Order c07In2  `yae:"order"`
}
type c07In3 struct {
	ID   float64  `yae:"id"`
	Tags []string `yae:"tags"`
}
type c07Env3 struct {
	A     float64 `yae:"a"`
	Order c07In3  `yae:"order"`
}

func c07NestedNilableFields(c *Ctx) {
	type tc struct {
		name     string
		compile  interface{}
		run      interface{}
		accepted bool
	}
	cases := []tc{
		{"nested slice: compile set, run nil", c07Env1{1, c07In1{1, []string{"x"}}}, c07Env1{2, c07In1{2, nil}}, false},
		{"nested slice: compile set, run set", c07Env1{1, c07In1{1, []string{"x"}}}, c07Env1{2, c07In1{2, []string{"y"}}}, true},
		{"nested map: compile set, run nil", c07Env2{1, c07In2{1, map[string]float64{"k": 1}}}, c07Env2{2, c07In2{2, nil}}, false},
		{"nested map: compile set, run set", c07Env2{1, c07In2{1, map[string]float64{"k": 1}}}, c07Env2{2, c07In2{2, map[string]float64{"j": 2}}}, true},
		{"nested slice: compile nil, run set", c07Env3{1, c07In3{1, nil}}, c07Env3{2, c07In3{2, []string{"y"}}}, false},
		{"nested slice: compile nil, run nil", c07Env3{1, c07In3{1, nil}}, c07Env3{2, c07In3{2, nil}}, true},
	}
	for _, backend := range backends {
		for _, k := range cases {
			in := fmt.Sprintf("tr(a) + 1 [%s] env{a; order{id; tags/m}}: %s", backend, k.name)
			c.eval(in, true)
			tr := &trace{}
			cl, o := compile(newEngine(backend, tr), "tr(a) + 1", k.compile)
			if cl == nil {
				c.fail("C07/setup/compile", in, "compiles", o.String(), "")
				continue
			}
			res := call(cl, k.run)
			if k.accepted {
				if !res.ok() || res.V.Type.Kind != types.KNum || res.V.Num().V != 3 {
					c.fail("C07/equal-types-accepted-evaluates/nested-nilable-field", in, "3", res.String(), "")
				}
			} else if res.Panic != "" || res.Err == nil || len(tr.log) != 0 {
				c.fail("C07/mismatch-rejected-nothing-evaluated/nested-nilable-field-nil-vs-set", in, "error returned, nothing evaluated", res.String(), "trace "+fmt.Sprint(tr.log))
			}
		}
	}
}

// a compile-time environment given as a raw *types.Env in which one type node
// is shared by two positions (host-built environments never share nodes; a
// hand-built one may).  The run-time value matches at the first occurrence and
// differs at the second: whatever the type comparison remembers about nodes it
// has seen, the second position must still be compared.
type c07NumPt struct {
	X float64 `yae:"x"`
	Y float64 `yae:"y"`
}
type c07StrPt struct {
	X string `yae:"x"`
	Y string `yae:"y"`
}
type c07SegGood struct {
	Seg struct {
		From c07NumPt `yae:"from"`
		To   c07NumPt `yae:"to"`
	} `yae:"seg"`
}
type c07SegBad struct {
	Seg struct {
		From c07NumPt `yae:"from"`
		To   c07StrPt `yae:"to"`
	} `yae:"seg"`
}
type c07SegBad2 struct {
	Seg struct {
		From c07StrPt `yae:"from"`
		To   c07NumPt `yae:"to"`
	} `yae:"seg"`
}

func c07SharedTypeNode(c *Ctx) {
	mkEnv := func() *types.Env {
		point := types.Obj([]types.Field{{Name: "x", Val: types.Num}, {Name: "y", Val: types.Num}})
		seg := types.Obj([]types.Field{{Name: "from", Val: point}, {Name: "to", Val: point}})
		env := types.NewEnv()
		env.Put("seg", seg)
		return env
	}
	var good c07SegGood
	good.Seg.From, good.Seg.To = c07NumPt{1, 2}, c07NumPt{4, 6}
	var bad c07SegBad
	bad.Seg.From, bad.Seg.To = c07NumPt{1, 2}, c07StrPt{"a", "b"}
	var bad2 c07SegBad2
	bad2.Seg.From, bad2.Seg.To = c07StrPt{"a", "b"}, c07NumPt{4, 6}
	cases := []struct {
		name     string
		run      interface{}
		accepted bool
	}{
		{"both points num", good, true},
		{"second point has str fields", bad, false},
		{"first point has str fields", bad2, false},
	}
	for _, backend := range backends {
		for _, k := range cases {
			in := fmt.Sprintf("tr(seg.to.x - seg.from.x) [%s] compile env: raw *types.Env, seg{from, to} sharing ONE point type node; run env: %s", backend, k.name)
			c.eval(in, true)
			tr := &trace{}
			cl, o := compile(newEngine(backend, tr), "tr(seg.to.x - seg.from.x)", mkEnv())
			if cl == nil {
				c.fail("C07/setup/compile", in, "compiles", o.String(), "")
				continue
			}
			res := call(cl, k.run)
			if k.accepted {
				if !res.ok() || res.V.Type.Kind != types.KNum || res.V.Num().V != 3 {
					c.fail("C07/equal-types-accepted-evaluates/shared-type-node", in, "3", res.String(), "")
				}
			} else if res.Panic != "" || res.Err == nil || len(tr.log) != 0 {
				c.fail("C07/mismatch-rejected-nothing-evaluated/shared-type-node", in, "error returned, nothing evaluated", res.String(), "trace "+fmt.Sprint(tr.log))
			}
		}
	}
}

var _ = sort.Strings
