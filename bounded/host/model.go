package host

import (
	"fmt"
	"math"
	"reflect"
	"sort"
	"strconv"
	"strings"
	"time"
	"unicode"
	"unicode/utf8"

	"github.com/goghcrow/yae/types"
	"github.com/goghcrow/yae/val"
)

// The harness' own model of yae types and values (the executable twin of the
// reference semantics of DESIGN Appendix D).  Expectations are computed on
// this model, never with the functions under test.

type kind int

const (
	kNum kind = iota
	kStr
	kBool
	kTime
	kList
	kMap
	kObj
	kMaybe
)

// MT is a model type.
type MT struct {
	K   kind
	El  *MT  // list element / map value / maybe payload
	Key *MT  // map key
	F   []MF // object fields in declaration order
}

type MF struct {
	Name string
	T    *MT
}

var (
	tNum  = &MT{K: kNum}
	tStr  = &MT{K: kStr}
	tBool = &MT{K: kBool}
	tTime = &MT{K: kTime}
)

func tList(el *MT) *MT       { return &MT{K: kList, El: el} }
func tMap(k, v *MT) *MT      { return &MT{K: kMap, Key: k, El: v} }
func tMaybe(el *MT) *MT      { return &MT{K: kMaybe, El: el} }
func tObj(fs ...MF) *MT      { return &MT{K: kObj, F: fs} }
func fld(n string, t *MT) MF { return MF{n, t} }

// String renders the type with declaration order (for messages).
func (t *MT) String() string {
	switch t.K {
	case kNum:
		return "num"
	case kStr:
		return "str"
	case kBool:
		return "bool"
	case kTime:
		return "time"
	case kList:
		return "list[" + t.El.String() + "]"
	case kMap:
		return "map[" + t.Key.String() + ", " + t.El.String() + "]"
	case kMaybe:
		return "maybe[" + t.El.String() + "]"
	case kObj:
		xs := make([]string, len(t.F))
		for i, f := range t.F {
			xs[i] = f.Name + ": " + f.T.String()
		}
		return "{" + strings.Join(xs, ", ") + "}"
	}
	return "?"
}

// Canon renders the type with object fields sorted by name: two model types
// are equal (tyEq) exactly when their Canon texts are equal.
func (t *MT) Canon() string {
	switch t.K {
	case kList:
		return "list[" + t.El.Canon() + "]"
	case kMap:
		return "map[" + t.Key.Canon() + ", " + t.El.Canon() + "]"
	case kMaybe:
		return "maybe[" + t.El.Canon() + "]"
	case kObj:
		xs := make([]string, len(t.F))
		for i, f := range t.F {
			xs[i] = f.Name + ": " + f.T.Canon()
		}
		sort.Strings(xs)
		return "{" + strings.Join(xs, ", ") + "}"
	}
	return t.String()
}

// tyEq: structural, objects up to field order (by name).
func tyEq(a, b *MT) bool {
	if a.K != b.K {
		return false
	}
	switch a.K {
	case kList, kMaybe:
		return tyEq(a.El, b.El)
	case kMap:
		return tyEq(a.Key, b.Key) && tyEq(a.El, b.El)
	case kObj:
		if len(a.F) != len(b.F) {
			return false
		}
		for _, fa := range a.F {
			fb := b.field(fa.Name)
			if fb == nil || !tyEq(fa.T, fb.T) {
				return false
			}
		}
		return true
	}
	return true
}

func (t *MT) field(name string) *MF {
	for i := range t.F {
		if t.F[i].Name == name {
			return &t.F[i]
		}
	}
	return nil
}

// MV is a model value.
type MV struct {
	T    *MT
	N    float64
	S    string
	B    bool
	Tm   time.Time
	L    []*MV // list elements
	Keys []*MV // map keys in insertion order
	Vals []*MV // map values aligned with Keys
	F    []*MV // object field values aligned with T.F
	J    *MV   // maybe payload; nil = Nothing
	// Label overrides String() (inputs whose text would not be reproducible,
	// e.g. the current time)
	Label string
}

func vNum(n float64) *MV    { return &MV{T: tNum, N: n} }
func vStr(s string) *MV     { return &MV{T: tStr, S: s} }
func vBool(b bool) *MV      { return &MV{T: tBool, B: b} }
func vTime(t time.Time) *MV { return &MV{T: tTime, Tm: t} }
func vList(el *MT, xs ...*MV) *MV {
	return &MV{T: tList(el), L: xs}
}
func vMap(k, v *MT, kv ...*MV) *MV {
	m := &MV{T: tMap(k, v)}
	for i := 0; i+1 < len(kv); i += 2 {
		m.Keys = append(m.Keys, kv[i])
		m.Vals = append(m.Vals, kv[i+1])
	}
	return m
}

// vObj builds an object; the type is derived from the field values.
func vObj(nv ...interface{}) *MV {
	o := &MV{T: &MT{K: kObj}}
	for i := 0; i+1 < len(nv); i += 2 {
		v := nv[i+1].(*MV)
		o.T.F = append(o.T.F, MF{nv[i].(string), v.T})
		o.F = append(o.F, v)
	}
	return o
}
func vJust(v *MV) *MV     { return &MV{T: tMaybe(v.T), J: v} }
func vNothing(el *MT) *MV { return &MV{T: tMaybe(el)} }

func (v *MV) get(name string) *MV {
	for i, f := range v.T.F {
		if f.Name == name {
			return v.F[i]
		}
	}
	return nil
}

// permuteFields returns the same object content declared in another order
// (shallow; nested values are shared).
func (v *MV) permuteFields(perm []int) *MV {
	o := &MV{T: &MT{K: kObj}}
	for _, i := range perm {
		o.T.F = append(o.T.F, v.T.F[i])
		o.F = append(o.F, v.F[i])
	}
	return o
}

// permuteEntries returns the same map content inserted in another order.
func (v *MV) permuteEntries(perm []int) *MV {
	m := &MV{T: v.T}
	for _, i := range perm {
		m.Keys = append(m.Keys, v.Keys[i])
		m.Vals = append(m.Vals, v.Vals[i])
	}
	return m
}

// refEq is the reference sameness of Appendix D restricted to the proviso of
// C18 (numeric parts identical or more than EPS apart and finite): numbers
// are the same iff identical.
func refEq(x, y *MV) bool {
	if !tyEq(x.T, y.T) {
		return false
	}
	switch x.T.K {
	case kNum:
		return x.N == y.N
	case kStr:
		return x.S == y.S
	case kBool:
		return x.B == y.B
	case kTime:
		return x.Tm.UnixNano() == y.Tm.UnixNano() && x.Tm.Unix() == y.Tm.Unix()
	case kList:
		if len(x.L) != len(y.L) {
			return false
		}
		for i := range x.L {
			if !refEq(x.L[i], y.L[i]) {
				return false
			}
		}
		return true
	case kMap:
		ex, ey := x.entries(), y.entries()
		if len(ex) != len(ey) {
			return false
		}
		for _, e := range ex {
			found := false
			for _, f := range ey {
				if refEq(e[0], f[0]) {
					found = refEq(e[1], f[1])
					break
				}
			}
			if !found {
				return false
			}
		}
		return true
	case kObj:
		for i, f := range x.T.F {
			if !refEq(x.F[i], y.get(f.Name)) {
				return false
			}
		}
		return true
	case kMaybe:
		if x.J == nil || y.J == nil {
			return x.J == nil && y.J == nil
		}
		return refEq(x.J, y.J)
	}
	return false
}

// entries: the map's entries after "a later duplicate key wins" (reference
// key identity = refEq on keys), in first-insertion order.
func (v *MV) entries() [][2]*MV {
	var out [][2]*MV
	for i, k := range v.Keys {
		dup := false
		for j := range out {
			if refEq(out[j][0], k) {
				out[j][1] = v.Vals[i]
				dup = true
				break
			}
		}
		if !dup {
			out = append(out, [2]*MV{k, v.Vals[i]})
		}
	}
	return out
}

// String: a readable, construction-order preserving description (used as
// the concrete input in reports and as the distinctness key).
func (v *MV) String() string {
	if v.Label != "" {
		return v.Label
	}
	switch v.T.K {
	case kNum:
		return strconv.FormatFloat(v.N, 'g', -1, 64)
	case kStr:
		return strconv.Quote(v.S)
	case kBool:
		return strconv.FormatBool(v.B)
	case kTime:
		return "time(" + v.Tm.Format(time.RFC3339Nano) + monoMark(v.Tm) + ")"
	case kList:
		xs := make([]string, len(v.L))
		for i, e := range v.L {
			xs[i] = e.String()
		}
		return "[" + strings.Join(xs, ", ") + "]"
	case kMap:
		if len(v.Keys) == 0 {
			return "[:]"
		}
		xs := make([]string, len(v.Keys))
		for i := range v.Keys {
			xs[i] = v.Keys[i].String() + ": " + v.Vals[i].String()
		}
		return "[" + strings.Join(xs, ", ") + "]"
	case kObj:
		xs := make([]string, len(v.F))
		for i, f := range v.T.F {
			xs[i] = f.Name + ": " + v.F[i].String()
		}
		return "{" + strings.Join(xs, ", ") + "}"
	case kMaybe:
		if v.J == nil {
			return "Nothing<" + v.T.El.String() + ">"
		}
		return "Just<" + v.T.El.String() + ">(" + v.J.String() + ")"
	}
	return "?"
}

func monoMark(t time.Time) string {
	if strings.Contains(t.String(), " m=") {
		return ",monotonic"
	}
	return ""
}

// ---------------------------------------------------------------------------
// materialisation: raw yae types and values

func toType(t *MT) *types.Type {
	switch t.K {
	case kNum:
		return types.Num
	case kStr:
		return types.Str
	case kBool:
		return types.Bool
	case kTime:
		return types.Time
	case kList:
		return types.List(toType(t.El))
	case kMap:
		return types.Map(toType(t.Key), toType(t.El))
	case kMaybe:
		return types.Maybe(toType(t.El))
	case kObj:
		fs := make([]types.Field, len(t.F))
		for i, f := range t.F {
			fs[i] = types.Field{Name: f.Name, Val: toType(f.T)}
		}
		return types.Obj(fs)
	}
	panic("toType")
}

// toVal builds the value with the public factories of package val (a raw
// environment value, as a host would build it by hand).
func toVal(v *MV) *val.Val {
	switch v.T.K {
	case kNum:
		return val.Num(v.N)
	case kStr:
		return val.Str(v.S)
	case kBool:
		return val.Bool(v.B)
	case kTime:
		return val.Time(v.Tm)
	case kList:
		l := val.List(toType(v.T).List(), 0).List()
		for _, e := range v.L {
			l.Add(toVal(e))
		}
		return l.Vl()
	case kMap:
		m := val.Map(toType(v.T).Map()).Map()
		for i := range v.Keys {
			m.Put(toVal(v.Keys[i]), toVal(v.Vals[i]))
		}
		return m.Vl()
	case kObj:
		o := val.Obj(toType(v.T).Obj()).Obj()
		for i, f := range v.T.F {
			if !o.Put(f.Name, toVal(v.F[i])) {
				panic("toVal: Put failed for " + f.Name)
			}
		}
		return o.Vl()
	case kMaybe:
		if v.J == nil {
			return val.Nothing(toType(v.T.El))
		}
		return val.Just(toType(v.T.El), toVal(v.J))
	}
	panic("toVal")
}

// ---------------------------------------------------------------------------
// materialisation: Go host data

// goStyle selects one of several equally shaped Go types for the same model
// type: style 0 names struct fields "F<name>", style 1 "G<name>" (a
// different Go type with the same tags).
type goStyle int

func goFieldName(style goStyle, name string) string {
	p := "F"
	if style == 1 {
		p = "G"
	}
	var b strings.Builder
	for _, r := range name {
		if unicode.IsLetter(r) || unicode.IsDigit(r) || r == '_' {
			b.WriteRune(r)
		} else {
			b.WriteString(fmt.Sprintf("_%x_", r))
		}
	}
	return p + b.String()
}

var typeOfTimeGo = reflect.TypeOf(time.Time{})

// hostable: can the model type be expressed as Go host data?  maybe[..] is
// only expressible as a struct field (pointer + `maybe` marker).
func hostable(t *MT, asField bool) bool {
	switch t.K {
	case kList:
		return hostable(t.El, false)
	case kMap:
		return hostable(t.El, false)
	case kMaybe:
		return asField && t.El.K != kMaybe && hostable(t.El, false)
	case kObj:
		for _, f := range t.F {
			if !hostable(f.T, true) {
				return false
			}
		}
	}
	return true
}

func toGoType(t *MT, style goStyle) reflect.Type {
	switch t.K {
	case kNum:
		return reflect.TypeOf(float64(0))
	case kStr:
		return reflect.TypeOf("")
	case kBool:
		return reflect.TypeOf(false)
	case kTime:
		return typeOfTimeGo
	case kList:
		return reflect.SliceOf(toGoType(t.El, style))
	case kMap:
		return reflect.MapOf(toGoType(t.Key, style), toGoType(t.El, style))
	case kMaybe:
		return reflect.PointerTo(toGoType(t.El, style))
	case kObj:
		fs := make([]reflect.StructField, len(t.F))
		for i, f := range t.F {
			tag := `yae:"` + f.Name + `"`
			if f.T.K == kMaybe {
				tag = `yae:"` + f.Name + `,maybe"`
			}
			fs[i] = reflect.StructField{
				Name: goFieldName(style, f.Name),
				Type: toGoType(f.T, style),
				Tag:  reflect.StructTag(tag),
			}
		}
		return reflect.StructOf(fs)
	}
	panic("toGoType")
}

// toGo builds Go host data for the model value: float64, string, bool,
// time.Time, slices, maps, tagged structs, optional fields as pointers with
// the `maybe` marker.
func toGo(v *MV, style goStyle) reflect.Value {
	rt := toGoType(v.T, style)
	rv := reflect.New(rt).Elem()
	switch v.T.K {
	case kNum:
		rv.SetFloat(v.N)
	case kStr:
		rv.SetString(v.S)
	case kBool:
		rv.SetBool(v.B)
	case kTime:
		rv.Set(reflect.ValueOf(v.Tm))
	case kList:
		s := reflect.MakeSlice(rt, 0, len(v.L))
		for _, e := range v.L {
			s = reflect.Append(s, toGo(e, style))
		}
		rv.Set(s)
	case kMap:
		m := reflect.MakeMap(rt)
		for i := range v.Keys {
			m.SetMapIndex(toGo(v.Keys[i], style), toGo(v.Vals[i], style))
		}
		rv.Set(m)
	case kObj:
		for i := range v.T.F {
			rv.Field(i).Set(toGo(v.F[i], style))
		}
	case kMaybe:
		if v.J != nil {
			p := reflect.New(rt.Elem())
			p.Elem().Set(toGo(v.J, style))
			rv.Set(p)
		}
	}
	return rv
}

// ---------------------------------------------------------------------------
// materialisation: yae source literals

// toLit renders the value as a yae literal; ok=false when no literal form
// exists (optionals, empty containers whose element type would be ⊥, times
// that are not whole seconds or carry a zone the literal cannot express).
func toLit(v *MV) (string, bool) {
	switch v.T.K {
	case kNum:
		if math.IsInf(v.N, 0) || math.IsNaN(v.N) {
			return "", false
		}
		a := math.Abs(v.N)
		s := strconv.FormatFloat(a, 'f', -1, 64)
		if len(s) > 40 {
			s = strconv.FormatFloat(a, 'e', -1, 64)
			s = strings.Replace(s, "e+", "e", 1)
		}
		if math.Signbit(v.N) {
			return "(-" + s + ")", true
		}
		return s, true
	case kStr:
		if !utf8.ValidString(v.S) {
			return "", false
		}
		return litStr(v.S), true
	case kBool:
		return strconv.FormatBool(v.B), true
	case kTime:
		if v.Tm.Nanosecond() != 0 || v.Label != "" {
			return "", false
		}
		return "'" + v.Tm.UTC().Format("2006-01-02 15:04:05") + " UTC'", true
	case kList:
		if len(v.L) == 0 {
			return "", false
		}
		xs := make([]string, len(v.L))
		for i, e := range v.L {
			s, ok := toLit(e)
			if !ok {
				return "", false
			}
			xs[i] = s
		}
		return "[" + strings.Join(xs, ", ") + "]", true
	case kMap:
		if len(v.Keys) == 0 {
			return "", false
		}
		xs := make([]string, len(v.Keys))
		for i := range v.Keys {
			k, ok1 := toLit(v.Keys[i])
			x, ok2 := toLit(v.Vals[i])
			if !ok1 || !ok2 {
				return "", false
			}
			xs[i] = k + ": " + x
		}
		return "[" + strings.Join(xs, ", ") + "]", true
	case kObj:
		xs := make([]string, len(v.F))
		for i, f := range v.T.F {
			s, ok := toLit(v.F[i])
			if !ok {
				return "", false
			}
			xs[i] = f.Name + ": " + s
		}
		return "{" + strings.Join(xs, ", ") + "}", true
	}
	return "", false
}

// litStr writes a yae string literal using only the escapes that both the
// lexer rule and the literal decoder accept.
func litStr(s string) string {
	var b strings.Builder
	b.WriteByte('"')
	for _, r := range s {
		switch {
		case r == '"':
			b.WriteString(`\"`)
		case r == '\\':
			b.WriteString(`\\`)
		case r == '\n':
			b.WriteString(`\n`)
		case r == '\t':
			b.WriteString(`\t`)
		case r == '\r':
			b.WriteString(`\r`)
		case r < 0x20 || r == 0x7f:
			b.WriteString(fmt.Sprintf(`\u%04x`, r))
		default:
			b.WriteRune(r)
		}
	}
	b.WriteByte('"')
	return b.String()
}
