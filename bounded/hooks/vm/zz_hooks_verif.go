//go:build verif

package vm

// Read-only accessors for the bounded stand-in harness (/verif/bounded).
// Add-only: nothing here is referenced by the production code, and the file
// is compiled only with the build tag `verif` (overlaid by run.sh, never
// written into the repository).

import (
	"unsafe"

	"github.com/goghcrow/yae/compiler"
	"github.com/goghcrow/yae/parser/ast"
	"github.com/goghcrow/yae/types"
	"github.com/goghcrow/yae/val"
)

// VerifCompileCallThreaded is vm.Compile with the call-threaded dispatch loop
// (callThreading) instead of the switch loop. Thunk bodies run on the same VM
// and therefore with the same loop.
func VerifCompileCallThreaded(expr ast.Expr, env1 *val.Env) compiler.Closure {
	bytecode := NewCompile().Compile(expr, env1)
	return func(env *val.Env) *val.Val {
		v := NewVM()
		v.interp = callThreading
		return v.Interp(bytecode, env)
	}
}

// VerifProgram is a read-only view of a compiled program.
type VerifProgram struct {
	Code   []byte
	Consts []interface{} // shared constant pool (program and all thunk bodies)
}

// VerifCompileBytecode compiles and returns the code bytes and the constant pool.
func VerifCompileBytecode(expr ast.Expr, env1 *val.Env) VerifProgram {
	b := NewCompile().Compile(expr, env1)
	return VerifProgram{Code: b.code, Consts: b.data}
}

// VerifThunkBody returns the code of a thunk constant (a constant created by
// newThunk), or ok=false if the constant is not a thunk.
func VerifThunkBody(c interface{}) (code []byte, ok bool) {
	v, isVal := c.(*val.Val)
	if !isVal || v == nil || v.Type == nil || v.Type.Kind != types.KFun {
		return nil, false
	}
	f := v.Type.Fun()
	if f.Name != "thunk" || len(f.Param) != 0 {
		return nil, false
	}
	t := (*thunkVal)(unsafe.Pointer(v))
	if t.bytecode == nil {
		return nil, false
	}
	return t.bytecode.code, true
}

// VerifOpcodeEnd is the first byte value that is not an instruction.
func VerifOpcodeEnd() int { return int(_END_) }

// VerifOpcodeName is the generated name of an opcode.
func VerifOpcodeName(op byte) string { return opcode(op).String() }
