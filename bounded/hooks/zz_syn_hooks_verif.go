//go:build verif

package yae

import "github.com/goghcrow/yae/types"

// VerifSynTypeEnv is a read-only accessor for the bounded harness group "syn"
// (C05): the engine's function-signature environment, after the built-ins and
// the user's RegisterFun calls have been applied.  Add-only; not compiled
// without the verif tag.
func (e *Expr) VerifSynTypeEnv() *types.Env {
	e.makeSureInit()
	return e.typeCheck
}
