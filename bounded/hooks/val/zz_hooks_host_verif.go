//go:build verif

package val

import "github.com/goghcrow/yae/types"

// VerifHostKeyTag is a read-only accessor for the bounded harness group
// "host": the kind tag stored in a map key (unexported field).
func (k Key) VerifHostKeyTag() types.Kind { return k.tag }
