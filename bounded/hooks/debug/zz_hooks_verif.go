//go:build verif

package debug

import "github.com/goghcrow/yae/val"

// VerifEntries is a read-only copy of the (value, column) entries of a debug
// record in recording order (bounded stand-in harness, C19).
func (r *Record) VerifEntries() (vals []*val.Val, cols []int) {
	for _, e := range r.vs {
		vals = append(vals, e.v)
		cols = append(cols, e.col)
	}
	return
}
